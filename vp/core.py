"""Core of the verification runner: recorder, sharding, hypothesis driver,
collect -> bucket -> shrink, evidence writer, replay, exit codes.

Contract of a check module (vp/checks/cXX.py):

    PROPERTY   = 'C13'
    LEVEL      = 'exploration'
    RULE       = '...how cases are generated, what makes one non-trivial...'
    ASSUMPTIONS = [...]
    FLOORS     = {'class-name': (min_fraction, 'denominator-class')}   # optional
    def selftest() -> None            # oracle self-test, raise on failure (-> exit 2)
    def jobs(tier, seed) -> list[dict]   # JSON-able shard jobs; each has 'check'
    def run_job(job, rec) -> None     # do the work, record through rec
    def judge(check, case) -> list[Disc]   # pure re-judgement of a JSON case (replay)

Everything a case contains must be JSON-able so that a replay file bypasses
hypothesis completely.
"""
from __future__ import annotations

import hashlib
import json
import os
import sys
import time
import traceback
from dataclasses import dataclass, field
from typing import Any, Callable

VERIF_DIR = os.path.dirname(os.path.dirname(os.path.abspath(__file__)))

EXIT_OK, EXIT_VIOLATION, EXIT_HARNESS = 0, 1, 2


class HarnessError(Exception):
    """A failure of the machinery itself (never a VIOLATION)."""


# --------------------------------------------------------------------------
# small helpers
# --------------------------------------------------------------------------

def canon(obj: Any) -> str:
    return json.dumps(obj, sort_keys=True, ensure_ascii=True, default=repr, separators=(',', ':'))


def h64(obj: Any) -> int:
    s = obj if isinstance(obj, str) else canon(obj)
    return int.from_bytes(hashlib.blake2b(s.encode('utf-8', 'surrogatepass'), digest_size=8).digest(), 'big')


def derive_seed(seed: int, *parts: Any) -> int:
    return h64([seed, *parts]) % (2 ** 62)


def short(obj: Any, n: int = 300) -> str:
    s = obj if isinstance(obj, str) else repr(obj)
    return s if len(s) <= n else s[:n] + '...'


@dataclass
class Disc:
    """One discrepancy between implementation and oracle."""
    bucket: str
    expected: Any = None
    observed: Any = None
    detail: str = ''

    def to_json(self) -> dict:
        return {'bucket': self.bucket, 'expected': short(self.expected), 'observed': short(self.observed),
                'detail': short(self.detail, 600)}


def escape_bucket(prop: str, exc: BaseException, repo_root: str | None = None) -> str:
    """Bucket for an exception escaping elementpath: type + innermost elementpath frame."""
    tb = traceback.extract_tb(exc.__traceback__)
    site = 'outside'
    for fr in reversed(tb):
        fn = fr.filename.replace('\\', '/')
        if '/elementpath/' in fn:
            site = fn.split('/elementpath/', 1)[1] + ':' + fr.name
            break
    return f'{prop}/escape/{type(exc).__name__}@{site}'


# --------------------------------------------------------------------------
# Recorder: lives in a shard process
# --------------------------------------------------------------------------

class Recorder:
    MAX_SAMPLES = 4
    MAX_PER_BUCKET = 3

    def __init__(self, job: dict, deadline: float | None = None):
        self.job = job
        self.evaluations = 0
        self.nontrivial: set[int] = set()
        self.classes: dict[str, int] = {}
        self.samples: list[Any] = []
        self.discs: dict[str, dict] = {}      # bucket -> {'count', 'cases': [...]}
        self.notes: list[str] = []
        self.deadline = deadline
        self.expired_flag = False
        self.extra: dict[str, Any] = {}

    # -- bookkeeping -------------------------------------------------------
    def expired(self) -> bool:
        if self.deadline is not None and time.time() > self.deadline:
            self.expired_flag = True
        return self.expired_flag

    def case(self, key: Any = None, nontrivial: bool = False, sample: Any = None,
             classes: tuple | list = (), n: int = 1) -> None:
        self.evaluations += n
        for c in classes:
            self.classes[c] = self.classes.get(c, 0) + 1
        if nontrivial:
            self.nontrivial.add(h64(key if key is not None else sample))
            if sample is not None and len(self.samples) < self.MAX_SAMPLES:
                self.samples.append(sample)

    def cls(self, name: str, n: int = 1) -> None:
        self.classes[name] = self.classes.get(name, 0) + n

    def disc(self, check: str, case: Any, d: Disc) -> None:
        ent = self.discs.setdefault(d.bucket, {'count': 0, 'cases': [], 'check': check})
        ent['count'] += 1
        if len(ent['cases']) < self.MAX_PER_BUCKET:
            ent['cases'].append({'case': case, **d.to_json()})

    def discs_of(self, check: str, case: Any, ds: list[Disc]) -> None:
        for d in ds:
            self.disc(check, case, d)

    def result(self) -> dict:
        return {'job': self.job, 'evaluations': self.evaluations, 'nontrivial': sorted(self.nontrivial),
                'classes': self.classes, 'samples': self.samples, 'discs': self.discs,
                'notes': self.notes, 'expired': self.expired_flag, 'extra': self.extra}


# --------------------------------------------------------------------------
# Hypothesis driver
# --------------------------------------------------------------------------

def _settings(max_examples: int, shrink: bool):
    from hypothesis import HealthCheck, Phase, settings
    phases = [Phase.generate, Phase.shrink] if shrink else [Phase.generate]
    return settings(max_examples=max_examples, database=None, deadline=None, derandomize=False,
                    report_multiple_bugs=False, suppress_health_check=list(HealthCheck),
                    phases=phases, print_blob=False, verbosity=_quiet())


def _quiet():
    from hypothesis import Verbosity
    return Verbosity.quiet


class _Found(Exception):
    pass


def hyp_collect(strategy, body: Callable[[Any], None], n: int, seed: int, rec: Recorder | None = None) -> None:
    """Run `body(case)` on n generated cases; body must not raise for discrepancies."""
    from hypothesis import given, seed as hseed

    def test(case):
        if rec is not None and rec.expired():
            return
        body(case)

    hseed(seed)(_settings(n, False)(given(strategy)(test)))()


def hyp_shrink(strategy, judge: Callable[[Any], list[Disc]], bucket: str, n: int, seed: int,
               budget: int = 400) -> tuple[Any, Disc] | None:
    """Re-run the same seeded test raising only for `bucket`; return the shrunk (case, disc).

    After `budget` judge calls past the first failure, only the best case found so far
    keeps failing, so hypothesis converges quickly (its own cap is 5 minutes).
    """
    from hypothesis import given, seed as hseed
    state = {'best': None, 'best_key': None, 'calls': 0}

    def test(case):
        if state['best'] is not None:
            state['calls'] += 1
            if state['calls'] > budget:
                if canon(case) == state['best_key']:
                    raise _Found()
                return
        for d in judge(case):
            if d.bucket == bucket:
                state['best'] = (case, d)
                state['best_key'] = canon(case)
                raise _Found()

    try:
        hseed(seed)(_settings(n, True)(given(strategy)(test)))()
    except _Found:
        pass
    except Exception as e:  # hypothesis Flaky etc.: keep what we have
        if state['best'] is None:
            raise HarnessError(f'shrink pass failed: {e!r}')
    return state['best']


# --------------------------------------------------------------------------
# shard execution (child process)
# --------------------------------------------------------------------------

def _run_shard(args):
    modname, job, deadline = args
    import importlib
    t0 = time.time()
    try:
        mod = importlib.import_module(modname)
        rec = Recorder(job, deadline)
        mod.run_job(job, rec)
        res = rec.result()
        res['wall_s'] = time.time() - t0
        return res
    except BaseException as e:  # harness error inside a shard
        return {'job': job, 'harness_error': ''.join(traceback.format_exception(type(e), e, e.__traceback__))}


def _child_main(conn, fn, args):
    try:
        res = fn(args)
    except BaseException as e:
        res = {'harness_error': ''.join(traceback.format_exception(type(e), e, e.__traceback__))}
    try:
        conn.send(res)
    finally:
        conn.close()


def run_children(fn, arglist, nproc, deadline=None):
    """Run fn(args) for every args in its own forked process (at most nproc at a time).

    Returns (results, died, unfinished): results[i] is fn's return value or None; died = [(i, exitcode)] for
    children that ended without a result (killed by a signal: a crash inside the code under test, or the
    OOM killer); unfinished = indexes abandoned because the wall deadline passed.  Unlike multiprocessing.Pool
    a dying child neither hangs the run nor loses the other results.
    """
    import multiprocessing as mp
    from multiprocessing.connection import wait
    ctx = mp.get_context('fork')
    pending = list(range(len(arglist)))
    running = {}          # conn -> (proc, index)
    results = [None] * len(arglist)
    died, unfinished = [], []
    while pending or running:
        while pending and len(running) < nproc:
            i = pending.pop(0)
            rconn, wconn = ctx.Pipe(duplex=False)
            proc = ctx.Process(target=_child_main, args=(wconn, fn, arglist[i]))
            proc.start()
            wconn.close()
            running[rconn] = (proc, i)
        timeout = None if deadline is None else max(0.0, deadline - time.time())
        ready = wait(list(running), timeout=timeout)
        if not ready:
            if deadline is not None and time.time() >= deadline:
                for conn, (proc, i) in running.items():
                    proc.kill()
                    unfinished.append(i)
                unfinished.extend(pending)
                break
            continue
        for conn in ready:
            proc, i = running.pop(conn)
            try:
                results[i] = conn.recv()
            except (EOFError, OSError):
                proc.join(5)
                died.append((i, proc.exitcode))
            else:
                proc.join(30)
            conn.close()
    return results, died, unfinished


def _regressions_child(args):
    modname, prop, known = args
    import importlib
    mod = importlib.import_module(modname)
    n, bad, stale = run_regressions(mod, prop, known)
    return {'n': n, 'bad': bad, 'stale': stale}


def _shrink_shard(args):
    modname, job, bucket, budget = args
    import importlib
    try:
        mod = importlib.import_module(modname)
        if hasattr(mod, 'shrink_job'):
            got = mod.shrink_job(job, bucket, budget)
            if got is not None:
                case, d = got
                return {'case': case, **d.to_json()}
        return None
    except BaseException as e:
        return {'harness_error': ''.join(traceback.format_exception(type(e), e, e.__traceback__))}


# --------------------------------------------------------------------------
# findings
# --------------------------------------------------------------------------

def load_findings(prop: str) -> tuple[list[dict], list[dict]]:
    path = os.path.join(VERIF_DIR, 'known_findings.json')
    ents = []
    if os.path.exists(path):
        ents = [e for e in json.load(open(path)).get('findings', []) if e.get('property') == prop]
    extra = os.environ.get('VERIF_EXTRA_KNOWN')   # development aid only: proposed/<Cxx>/known.json
    if extra and os.path.exists(extra):
        ents += [e for e in json.load(open(extra)) if e.get('property') == prop]
    return [e for e in ents if e.get('status') == 'known'], [e for e in ents if e.get('status') == 'fixed']


def bucket_known(bucket: str, known: list[dict]) -> dict | None:
    for e in known:
        b = e['bucket']
        if b == bucket or (b.endswith('*') and bucket.startswith(b[:-1])):
            return e
    return None


# --------------------------------------------------------------------------
# main driver
# --------------------------------------------------------------------------

def write_replay(prop: str, check: str, bucket: str, rec: dict, seed: int, shrunk: bool) -> str:
    d = os.path.join(VERIF_DIR, 'replays', prop)
    os.makedirs(d, exist_ok=True)
    path = os.path.join(d, f'{h64(bucket):016x}.json')
    with open(path, 'w') as f:
        json.dump({'property': prop, 'check': check, 'bucket': bucket, 'case': rec['case'],
                   'expected': rec.get('expected'), 'observed': rec.get('observed'),
                   'detail': rec.get('detail'), 'seed': seed, 'shrunk': shrunk}, f, indent=1, default=repr)
    return os.path.relpath(path, VERIF_DIR)


def run_regressions(mod, prop: str, known: list[dict]) -> tuple[int, list[tuple[str, str, dict]], list[str]]:
    """Replay tier: committed cases under regressions/<prop>/ must not show unknown buckets."""
    d = os.path.join(VERIF_DIR, 'regressions', prop)
    n, bad, stale = 0, [], []
    if not os.path.isdir(d):
        return 0, [], []
    for name in sorted(os.listdir(d)):
        if not name.endswith('.json'):
            continue
        r = json.load(open(os.path.join(d, name)))
        n += 1
        discs = mod.judge(r['check'], r['case'])
        seen = {x.bucket for x in discs}
        for x in discs:
            if bucket_known(x.bucket, known) is None:
                bad.append((name, x.bucket, {'case': r['case'], **x.to_json(), 'check': r['check']}))
        exp = r.get('expect_bucket')
        if exp and exp not in seen:
            stale.append(f'{name}: expected known bucket {exp} no longer reproduces')
    return n, bad, stale


def main_check(mod, tier: str, seed: int, nproc: int | None = None) -> int:
    import multiprocessing as mp
    prop = mod.PROPERTY
    t0 = time.time()
    known, fixed = load_findings(prop)
    try:
        mod.selftest()
    except Exception:
        print(f'HARNESS-ERROR property={prop} oracle self-test failed', flush=True)
        traceback.print_exc()
        return EXIT_HARNESS

    # replay tier first
    crash_violations: list[tuple[str, dict]] = []
    rres, rdied, runf = run_children(_regressions_child, [(mod.__name__, prop, known)], 1, time.time() + 900)
    if rdied or runf or rres[0] is None or 'harness_error' in rres[0]:
        if rdied and rdied[0][1] in (-11, -6, -7, -4, -8):
            # the interpreter itself crashed while replaying committed cases: never happens on a tree where the
            # property holds (the cases pass there), so it is reported, not swallowed
            b = f'{prop}/crash/interpreter-killed-by-signal{-rdied[0][1]}/regression-replay'
            crash_violations.append((b, {'case': {'regressions_dir': f'regressions/{prop}'}, 'check': 'regressions',
                                         'expected': 'replay completes', 'observed': f'exit code {rdied[0][1]}'}))
            n_reg, reg_bad, stale = 0, [], []
        else:
            print(f'HARNESS-ERROR property={prop} regression replay crashed: died={rdied} unfinished={runf}', flush=True)
            if rres[0] and 'harness_error' in rres[0]:
                print(rres[0]['harness_error'])
            return EXIT_HARNESS
    else:
        n_reg, reg_bad, stale = rres[0]['n'], [tuple(x) for x in rres[0]['bad']], rres[0]['stale']

    if os.environ.get('VERIF_ONLY_REGRESSIONS'):    # development aid: replay tier only, no evidence written
        for s_ in stale:
            print(f'note: {s_}')
        for name, b, rec in reg_bad:
            print(f'regression case {name} shows bucket {b}')
        return EXIT_VIOLATION if reg_bad else EXIT_OK

    jobs = mod.jobs(tier, seed)
    budget_s = float(os.environ.get('VERIF_WALL_BUDGET', '600' if tier == 'quick' else '3600'))
    deadline = t0 + budget_s
    nproc = nproc or int(os.environ.get('VERIF_NPROC', '16'))
    ctx = mp.get_context('fork')
    # Every shard is its own forked process. A shard still running after the wall budget plus a grace period is
    # abandoned and the run is INCONCLUSIVE for it (a time budget is never a verdict); a shard whose interpreter
    # is killed by SIGSEGV/SIGABRT/SIGBUS is a crash inside the code under test and is reported as a violation;
    # any other abnormal end (e.g. SIGKILL from the OOM killer) is a harness error.
    grace = float(os.environ.get('VERIF_WALL_GRACE', '180'))
    raw, died, unf = run_children(_run_shard, [(mod.__name__, j, deadline) for j in jobs],
                                  min(nproc, max(1, len(jobs))), deadline + grace)
    unfinished = len(unf)
    for i, code in died:
        if code in (-11, -6, -7, -4, -8):
            b = f'{prop}/crash/interpreter-killed-by-signal{-code}/{jobs[i].get("check", "?")}'
            crash_violations.append((b, {'case': {'job': jobs[i]}, 'check': jobs[i].get('check', '?'),
                                         'expected': 'shard completes', 'observed': f'exit code {code}'}))
        else:
            print(f'HARNESS-ERROR property={prop} shard ended abnormally (exit code {code}): job={jobs[i]}', flush=True)
            return EXIT_HARNESS
    results = [r for r in raw if r is not None]
    results.sort(key=lambda r: canon(r.get('job')))

    herr = [r for r in results if 'harness_error' in r]
    if herr:
        print(f'HARNESS-ERROR property={prop} shard crashed: job={herr[0]["job"]}', flush=True)
        print(herr[0]['harness_error'])
        return EXIT_HARNESS

    # merge
    evaluations = sum(r['evaluations'] for r in results)
    nontrivial: set[int] = set()
    classes: dict[str, int] = {}
    samples: list[Any] = []
    discs: dict[str, dict] = {}
    notes: list[str] = []
    per_check: dict[str, dict] = {}
    extra: dict[str, Any] = {}
    expired = False
    for r in results:
        nontrivial.update(r['nontrivial'])
        for k, v in r['classes'].items():
            classes[k] = classes.get(k, 0) + v
        pc = per_check.setdefault(r['job'].get('check', '?'), {'evaluations': 0, 'samples': []})
        pc['evaluations'] += r['evaluations']
        for s in r['samples']:
            if len(pc['samples']) < 3:
                pc['samples'].append(s)
        for b, ent in r['discs'].items():
            e = discs.setdefault(b, {'count': 0, 'cases': [], 'check': ent['check'], 'jobs': []})
            e['count'] += ent['count']
            e['cases'].extend(ent['cases'][:max(0, 3 - len(e['cases']))])
            e['jobs'].append(r['job'])
        notes.extend(r['notes'])
        for k, v in r.get('extra', {}).items():
            if isinstance(v, (int, float)) and isinstance(extra.get(k, 0), (int, float)):
                extra[k] = extra.get(k, 0) + v
            else:
                extra.setdefault(k, v)
        expired = expired or r['expired']
    if unfinished:
        expired = True
        done = {canon(r['job']) for r in results}
        notes.append(f'{unfinished} shard(s) abandoned after wall budget + grace: '
                     + '; '.join(canon(j)[:120] for j in jobs if canon(j) not in done)[:600])
    for pc in per_check.values():
        samples.extend(pc['samples'])

    # generator health floors
    for cname, (frac, denom) in getattr(mod, 'FLOORS', {}).items():
        den = classes.get(denom, 0) if denom else evaluations
        if den and classes.get(cname, 0) < frac * den and not expired:
            print(f'HARNESS-ERROR property={prop} generator health: class {cname!r} = {classes.get(cname, 0)}'
                  f' of {den} {denom or "evaluations"} (< {frac})', flush=True)
            return EXIT_HARNESS

    # classify buckets
    excluded_known: dict[str, int] = {}
    new_buckets: list[str] = []
    for b, ent in sorted(discs.items()):
        k = bucket_known(b, known)
        if k is not None:
            excluded_known[k['bucket']] = excluded_known.get(k['bucket'], 0) + ent['count']
        else:
            new_buckets.append(b)

    violations: list[tuple[str, str]] = []
    for b, rec in crash_violations:
        path = write_replay(prop, rec['check'], b, rec, seed, False)
        violations.append((b, path))
        print(f'new bucket {b}: {rec["observed"]} ({rec["case"]})')
    for name, b, rec in reg_bad:
        path = write_replay(prop, rec['check'], b, rec, seed, True)
        violations.append((b, path))
        print(f'regression case {name} shows bucket {b}: expected={rec["expected"]} observed={rec["observed"]}')

    max_shrink = 5
    shrink_budget = 300 if tier == 'quick' else 3000
    tasks = []
    for b in new_buckets[:max_shrink]:
        tasks.append((mod.__name__, discs[b]['jobs'][0], b, shrink_budget))
    shrunk: list[Any] = []
    if tasks:
        shrunk, _sd, _su = run_children(_shrink_shard, tasks, min(nproc, len(tasks)), time.time() + 900)
    for i, b in enumerate(new_buckets):
        ent = discs[b]
        rec = ent['cases'][0]
        is_shrunk = False
        if i < len(shrunk) and shrunk[i] and 'harness_error' not in shrunk[i]:
            rec, is_shrunk = shrunk[i], True
        elif i < len(shrunk) and shrunk[i] and 'harness_error' in shrunk[i]:
            notes.append('shrink pass error: ' + shrunk[i]['harness_error'][-400:])
        path = write_replay(prop, ent['check'], b, rec, seed, is_shrunk)
        violations.append((b, path))
        print(f'new bucket {b} x{ent["count"]}: case={short(canon(rec["case"]), 400)} '
              f'expected={rec.get("expected")} observed={rec.get("observed")} {rec.get("detail", "")}')

    wall = time.time() - t0
    ev = {
        'property_id': prop, 'tier': tier, 'seed': seed, 'level': getattr(mod, 'LEVEL', 'exploration'),
        'coverage': {
            'evaluations': evaluations, 'distinct_nontrivial': len(nontrivial),
            'rule': mod.RULE, 'samples': samples[:12],
            'classes': dict(sorted(classes.items())),
            'per_check_evaluations': {k: v['evaluations'] for k, v in sorted(per_check.items())},
            'regression_cases_replayed': n_reg,
            'excluded_known': excluded_known,
            'exhaustive': bool(getattr(mod, 'EXHAUSTIVE', False)),
            'shards': len(jobs),
            'inconclusive_wall_budget_hit': expired,
            'new_buckets': new_buckets,
            **({'extra': extra} if extra else {}),
            **({'notes': notes[:20]} if notes else {}),
        },
        'assumptions': list(getattr(mod, 'ASSUMPTIONS', [])),
        'wall_s': round(wall, 2), 'violations': len(violations),
    }
    if getattr(mod, 'EXHAUSTIVE_NOTE', None):
        ev['coverage']['exhaustive_note'] = mod.EXHAUSTIVE_NOTE
    os.makedirs(os.path.join(VERIF_DIR, 'evidence'), exist_ok=True)
    with open(os.path.join(VERIF_DIR, 'evidence', f'{prop}.json'), 'w') as f:
        json.dump(ev, f, indent=1, default=repr)

    for e in known:
        print(f'KNOWN-FINDING: property={prop} {e["what"]} [bucket {e["bucket"]}; seen {excluded_known.get(e["bucket"], 0)}x this run]')
    for s in stale:
        print(f'note: {s}')
    print(f'{prop} {tier} seed={seed}: evaluations={evaluations} distinct_nontrivial={len(nontrivial)} '
          f'known_excluded={sum(excluded_known.values())} new_buckets={len(new_buckets)} wall={wall:.1f}s'
          + (' INCONCLUSIVE(wall budget)' if expired else ''), flush=True)
    if violations:
        for b, path in violations:
            print(f'VIOLATION property={prop} replay={path}', flush=True)
        return EXIT_VIOLATION
    return EXIT_OK


def main_replay(mod, path: str) -> int:
    prop = mod.PROPERTY
    known, _ = load_findings(prop)
    r = json.load(open(path if os.path.isabs(path) else os.path.join(VERIF_DIR, path)))
    try:
        mod.selftest()
        discs = mod.judge(r['check'], r['case'])
    except Exception:
        print(f'HARNESS-ERROR property={prop} replay crashed', flush=True)
        traceback.print_exc()
        return EXIT_HARNESS
    bad = [d for d in discs if bucket_known(d.bucket, known) is None]
    for d in discs:
        tag = 'known' if d not in bad else 'NEW'
        print(f'[{tag}] {d.bucket}: expected={short(d.expected)} observed={short(d.observed)} {d.detail}')
    if bad:
        print(f'VIOLATION property={prop} replay={path}', flush=True)
        return EXIT_VIOLATION
    print(f'{prop} replay {path}: no violation')
    return EXIT_OK
